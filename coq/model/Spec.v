(* Spec.v — what C08 / C14 require of each instruction, written by hand from the property texts and
   DESIGN.md §7, plus the boolean checkers that decide, entry by entry, whether the GENERATED accounts
   table (coq/gen/AccountsTable.v) and handler facts (coq/gen/HandlerFacts.v) provide it.
   Also here: the hand-written models of the in-body handler guards that matter for C08 / C14 (they are not
   declarative, so the translator cannot produce them): signer checks of lending_pool_handle_bankruptcy and
   lending_pool_clone_emode, and the validate_bank_state calls (their kinds come from HandlerFacts).
   Definitions only. *)
Require Import Base Constants Panic AnchorTypes AnchorSem Gate AccountsTable HandlerFacts.
Local Open Scope string_scope.
Local Open Scope Z_scope.

(* ---------------------------------------------------------------------------------------------
   classes of instructions *)
Inductive role := RAdmin | REmode | RCurve | RLimit | REmissions | RMetadata | RRisk.

(* the MarginfiGroup field holding the key of a role *)
Definition role_field (r : role) : string :=
  match r with
  | RAdmin => "admin" | REmode => "emode_admin" | RCurve => "delegate_curve_admin"
  | RLimit => "delegate_limit_admin" | REmissions => "delegate_emissions_admin"
  | RMetadata => "metadata_admin" | RRisk => "risk_admin"
  end.

Inductive ix_class :=
| KUser (allow_receivership : bool) (acct signer grp : string)
    (* acts on a marginfi account under the three-line signer rule *)
| KOwner (acct signer : string)
    (* acts on a marginfi account, strictly its authority (has_one = authority) *)
| KAdmin (roles : list role) (signer grp : string)
    (* administrative: signer must hold (one of) the named role(s) of the group *)
| KFeeAdmin (signer : string)
    (* administrative: signer must be the global fee admin of the fee state PDA *)
| KBankruptcy (signer grp bank acct : string)
    (* admin / risk admin, or anyone when the bank allows permissionless bad-debt settlement *)
| KStartLiquidation (acct record : string)
    (* permissionless start of a receivership on an account that qualifies (checked in the handler) *)
| KEndLiquidation (acct record receiver : string)
    (* only the receiver recorded by start_liquidation *)
| KCrank
    (* permissionless; cannot move funds out of a user position *)
| KInit.
    (* permissionless creation of a fresh account / group / bank of one's own *)

Definition U (allow : bool) := KUser allow "marginfi_account" "authority" "group".
Definition ADM (g : string) := KAdmin [RAdmin] "admin" g.

Definition classification : list (string * ix_class) := [
  ("marginfi_group_initialize", KInit);
  ("marginfi_group_configure", ADM "marginfi_group");
  ("lending_pool_add_bank", ADM "marginfi_group");
  ("lending_pool_add_bank_with_seed", ADM "marginfi_group");
  ("lending_pool_clone_bank", ADM "marginfi_group");
  ("lending_pool_add_bank_permissionless", KInit);
  ("lending_pool_configure_bank", ADM "group");
  ("lending_pool_configure_bank_interest_only", KAdmin [RCurve] "delegate_curve_admin" "group");
  ("lending_pool_configure_bank_limits_only", KAdmin [RLimit] "delegate_limit_admin" "group");
  ("lending_pool_force_tokenless_repay_complete", KAdmin [RRisk] "risk_admin" "group");
  ("lending_pool_configure_bank_oracle", ADM "group");
  ("lending_pool_set_fixed_oracle_price", ADM "group");
  ("lending_pool_configure_bank_emode", KAdmin [REmode] "emode_admin" "group");
  ("lending_pool_clone_emode", KAdmin [RAdmin; REmode] "signer" "group");
  ("lending_pool_setup_emissions", KAdmin [REmissions] "delegate_emissions_admin" "group");
  ("lending_pool_update_emissions_parameters", KAdmin [REmissions] "delegate_emissions_admin" "group");
  ("lending_pool_handle_bankruptcy", KBankruptcy "signer" "group" "bank" "marginfi_account");
  ("marginfi_account_initialize", KInit);
  ("marginfi_account_init_liq_record", KInit);
  ("marginfi_account_initialize_pda", KInit);
  ("lending_account_deposit", U false);
  ("lending_account_repay", U true);
  ("lending_account_withdraw", U true);
  ("lending_account_borrow", U false);
  ("lending_account_close_balance", U false);
  ("lending_account_withdraw_emissions", U false);
  ("lending_account_settle_emissions", KCrank);
  ("lending_account_liquidate", KUser false "liquidator_marginfi_account" "authority" "group");
  ("lending_account_start_flashloan", KOwner "marginfi_account" "authority");
  ("lending_account_end_flashloan", KOwner "marginfi_account" "authority");
  ("marginfi_account_update_emissions_destination_account", KOwner "marginfi_account" "authority");
  ("lending_pool_accrue_bank_interest", KCrank);
  ("lending_pool_collect_bank_fees", KCrank);
  ("lending_pool_withdraw_fees", ADM "group");
  ("lending_pool_withdraw_fees_permissionless", KCrank);
  ("lending_pool_update_fees_destination_account", ADM "group");
  ("lending_pool_withdraw_insurance", ADM "group");
  ("lending_pool_close_bank", ADM "group");
  ("transfer_to_new_account", KUser false "old_marginfi_account" "authority" "group");
  ("transfer_to_new_account_pda", KUser false "old_marginfi_account" "authority" "group");
  ("marginfi_account_set_freeze", ADM "group");
  ("marginfi_account_close", KOwner "marginfi_account" "authority");
  ("lending_account_withdraw_emissions_permissionless", KCrank);
  ("lending_account_pulse_health", KCrank);
  ("lending_pool_pulse_bank_price_cache", KCrank);
  ("init_global_fee_state", KInit);
  ("edit_global_fee_state", KFeeAdmin "global_fee_admin");
  ("propagate_fee_state", KCrank);
  ("config_group_fee", KFeeAdmin "global_fee_admin");
  ("init_staked_settings", ADM "marginfi_group");
  ("edit_staked_settings", ADM "marginfi_group");
  ("propagate_staked_settings", KCrank);
  ("start_liquidation", KStartLiquidation "marginfi_account" "liquidation_record");
  ("end_liquidation", KEndLiquidation "marginfi_account" "liquidation_record" "liquidation_receiver");
  ("start_deleverage", KAdmin [RRisk] "risk_admin" "group");
  ("end_deleverage", KAdmin [RRisk] "risk_admin" "group");
  ("panic_pause", KFeeAdmin "global_fee_admin");
  ("panic_unpause", KFeeAdmin "global_fee_admin");
  ("panic_unpause_permissionless", KCrank);
  ("migrate_curve", KCrank);
  ("init_bank_metadata", KInit);
  ("write_bank_metadata", KAdmin [RMetadata] "metadata_admin" "group");
  ("configure_deleverage_withdrawal_limit", ADM "marginfi_group");
  ("purge_deleverage_balance", KAdmin [RRisk] "risk_admin" "group");
  ("kamino_init_obligation", KInit);
  ("kamino_deposit", U false);
  ("kamino_withdraw", U true);
  ("lending_pool_add_bank_kamino", ADM "group");
  ("kamino_harvest_reward", KCrank);
  ("lending_pool_add_bank_drift", ADM "group");
  ("drift_init_user", KInit);
  ("drift_deposit", U false);
  ("drift_withdraw", U true);
  ("drift_harvest_reward", KCrank);
  ("lending_pool_add_bank_solend", ADM "group");
  ("solend_init_obligation", KInit);
  ("solend_deposit", U false);
  ("solend_withdraw", U true)
].

Definition classify (ix : string) : option ix_class := sassoc ix classification.

(* the withdraw / repay family: the only instructions that may allow "anyone during receivership" *)
Definition withdraw_repay_family : list string :=
  ["lending_account_withdraw"; "lending_account_repay"; "kamino_withdraw"; "drift_withdraw"; "solend_withdraw"].

(* ---------------------------------------------------------------------------------------------
   C14: the financial instructions (DESIGN.md §7 C14): every instruction that moves funds or changes
   positions in a group.  Deliberately NOT in the list (reported as observations): close_balance (removes an
   empty balance only), purge_deleverage_balance (risk-admin sunset path), settle_emissions, accrue interest,
   pulse_*, start/end liquidation, deleverage and flashloan brackets (they move nothing themselves;
   everything executed inside them is gated), account / record / bank creation, configuration. *)
Definition FinancialIx : list string := [
  "lending_account_deposit"; "lending_account_withdraw"; "lending_account_borrow"; "lending_account_repay";
  "lending_account_liquidate"; "lending_pool_handle_bankruptcy";
  "kamino_deposit"; "kamino_withdraw"; "drift_deposit"; "drift_withdraw"; "solend_deposit"; "solend_withdraw";
  "transfer_to_new_account"; "transfer_to_new_account_pda";
  "lending_account_withdraw_emissions"; "lending_account_withdraw_emissions_permissionless";
  "lending_pool_collect_bank_fees"; "lending_pool_withdraw_fees"; "lending_pool_withdraw_fees_permissionless";
  "lending_pool_withdraw_insurance"; "lending_pool_update_fees_destination_account"
].

(* instructions whose handler must refuse Paused and ReduceOnly banks / Paused banks only *)
Definition DepositBorrowFamily : list string :=
  ["lending_account_deposit"; "lending_account_borrow"; "kamino_deposit"; "drift_deposit"; "solend_deposit"].
Definition WithdrawRepayLiqFamily : list string :=
  ["lending_account_withdraw"; "lending_account_repay"; "lending_account_liquidate"; "lending_pool_handle_bankruptcy";
   "kamino_withdraw"; "drift_withdraw"; "solend_withdraw"].

(* ---------------------------------------------------------------------------------------------
   small matchers over the table syntax *)
Definition is_none {A} (o : option A) : bool := match o with None => true | Some _ => false end.

Definition plain (f : field) : bool := negb (f_opt f) && negb (f_init f).   (* always present, not created *)

Definition wrap_is_loader (ty : string) (f : field) : bool :=
  match f_wrap f with WLoader t => seqb t ty | _ => false end.
Definition wrap_is_signer (f : field) : bool := match f_wrap f with WSigner => true | _ => false end.

Definition has_one_of (f : field) (target : string) : bool := existsb (fun h => seqb (fst h) target) (f_has_one f).

Definition m_signer_auth (acct grp signer : string) (allow : bool) (c : cons) : bool :=
  match c with
  | CSignerAuthorized a g s al => seqb a acct && seqb g grp && seqb s signer && Bool.eqb al allow
  | _ => false
  end.
Definition m_not_frozen (acct signer : string) (c : cons) : bool :=
  match c with CNotFrozenForAuthority a s => seqb a acct && seqb s signer | _ => false end.
Definition m_not_paused (g : string) (c : cons) : bool :=
  match c with CNotPaused g' => seqb g' g | _ => false end.
Definition m_key_eq_data_field (f fld target : string) (c : cons) : bool :=
  match c with
  | CKeyEq (KData f' fld') (KField t') => seqb f' f && seqb fld' fld && seqb t' target
  | _ => false
  end.
Definition has_cons (P : cons -> bool) (f : field) : bool := existsb (fun ce => P (fst ce)) (f_cons f).

Definition seeds_are (f : field) (sl : list seed) : bool :=
  match f_seeds f with
  | Some (sl', None) =>
      (fix eq (a b : list seed) : bool :=
         match a, b with
         | [], [] => true
         | SLit x :: a', SLit y :: b' => seqb x y && eq a' b'
         | SKeyOf x :: a', SKeyOf y :: b' => seqb x y && eq a' b'
         | _, _ => false
         end) sl' sl
  | _ => false
  end.

(* ---------------------------------------------------------------------------------------------
   per-class checkers: does entry e declare what the class requires *)
Definition with_field (e : entry) (name : string) (P : field -> bool) : bool :=
  match find_field name (e_fields e) with Some f => P f | None => false end.

Definition check_signer_field (e : entry) (signer : string) : bool :=
  with_field e signer (fun f => wrap_is_signer f && plain f).

Definition check_user (e : entry) (allow : bool) (acct signer grp : string) : bool :=
  check_signer_field e signer &&
  with_field e grp (fun f => wrap_is_loader "MarginfiGroup" f && plain f) &&
  with_field e acct (fun f =>
    wrap_is_loader "MarginfiAccount" f && plain f && has_one_of f grp &&
    has_cons (m_signer_auth acct grp signer allow) f && has_cons (m_not_frozen acct signer) f).

Definition check_owner (e : entry) (acct signer : string) : bool :=
  check_signer_field e signer &&
  seqb signer "authority" &&
  with_field e acct (fun f => wrap_is_loader "MarginfiAccount" f && plain f && has_one_of f signer).

(* a single role enforced declaratively: the group has_one = <role field> where the signer field carries the
   role's name, or an explicit `group.<role> == signer.key()` constraint on any field *)
Definition check_admin_decl (e : entry) (r : role) (signer grp : string) : bool :=
  check_signer_field e signer &&
  with_field e grp (fun g =>
    wrap_is_loader "MarginfiGroup" g && plain g &&
    ((seqb signer (role_field r) && has_one_of g signer) ||
     existsb (fun f => plain f && has_cons (m_key_eq_data_field grp (role_field r) signer) f) (e_fields e))).

(* roles enforced in the handler body: the table must at least provide a signer and a typed group *)
Definition check_admin_body (e : entry) (signer grp : string) : bool :=
  check_signer_field e signer &&
  with_field e grp (fun g => wrap_is_loader "MarginfiGroup" g && plain g).

Definition check_admin (e : entry) (roles : list role) (signer grp : string) : bool :=
  match roles with
  | [r] => check_admin_decl e r signer grp
  | _ => check_admin_body e signer grp
  end.

Definition FEESTATE_SEEDS : list seed := [SLit "feestate"].

Definition check_fee_admin (e : entry) (signer : string) : bool :=
  check_signer_field e signer &&
  seqb signer "global_fee_admin" &&
  with_field e "fee_state" (fun f =>
    wrap_is_loader "FeeState" f && plain f && has_one_of f signer && seeds_are f FEESTATE_SEEDS).

Definition check_bankruptcy (e : entry) (signer grp bank acct : string) : bool :=
  check_signer_field e signer &&
  with_field e grp (fun g => wrap_is_loader "MarginfiGroup" g && plain g) &&
  with_field e bank (fun f => wrap_is_loader "Bank" f && plain f && has_one_of f grp) &&
  with_field e acct (fun f => wrap_is_loader "MarginfiAccount" f && plain f && has_one_of f grp).

Definition check_start_liq (e : entry) (acct record : string) : bool :=
  with_field e acct (fun f => wrap_is_loader "MarginfiAccount" f && plain f && has_one_of f record) &&
  with_field e record (fun f => wrap_is_loader "LiquidationRecord" f && plain f).

Definition check_end_liq (e : entry) (acct record receiver : string) : bool :=
  check_signer_field e receiver &&
  with_field e acct (fun f => wrap_is_loader "MarginfiAccount" f && plain f && has_one_of f record) &&
  with_field e record (fun f => wrap_is_loader "LiquidationRecord" f && plain f && has_one_of f receiver).

Definition check_class (e : entry) : bool :=
  match classify (e_ix e) with
  | None => false
  | Some (KUser allow acct signer grp) => check_user e allow acct signer grp
  | Some (KOwner acct signer) => check_owner e acct signer
  | Some (KAdmin roles signer grp) => check_admin e roles signer grp
  | Some (KFeeAdmin signer) => check_fee_admin e signer
  | Some (KBankruptcy signer grp bank acct) => check_bankruptcy e signer grp bank acct
  | Some (KStartLiquidation acct record) => check_start_liq e acct record
  | Some (KEndLiquidation acct record receiver) => check_end_liq e acct record receiver
  | Some KCrank => true
  | Some KInit => true
  end.

(* every instruction of the table is classified and meets its class; every classified name exists *)
Definition check_all_classes : bool :=
  forallb check_class accounts_table &&
  forallb (fun nc => match find_entry (fst nc) accounts_table with Some _ => true | None => false end) classification.

(* "anyone during receivership" may only appear in the withdraw / repay family *)
Fixpoint cons_allows_receivership (c : cons) : bool :=
  match c with
  | CSignerAuthorized _ _ _ al => al
  | CAnd a b => cons_allows_receivership a || cons_allows_receivership b
  | _ => false
  end.
Definition entry_allows_receivership (e : entry) : bool :=
  existsb (fun f => existsb (fun ce => cons_allows_receivership (fst ce)) (f_cons f)) (e_fields e).
Definition check_receivership_family : bool :=
  forallb (fun e => negb (entry_allows_receivership e) || smem (e_ix e) withdraw_repay_family) accounts_table.

(* ---------------------------------------------------------------------------------------------
   binding checkers (table-wide) *)
Definition group_field_of (e : entry) : option string :=
  option_map f_name (find (fun f => wrap_is_loader "MarginfiGroup" f) (e_fields e)).

(* (instruction, field) pairs whose bank / account is NOT tied to a group account by has_one, and why:
   the instruction has no group account at all (it acts on the bank / account alone), or ties it by an
   explicit constraint (settle_emissions: account.group == bank.group; propagate_staked_settings:
   bank.group == marginfi_group). *)
Definition group_binding_exceptions : list (string * string) := [
  ("lending_account_settle_emissions", "marginfi_account"); ("lending_account_settle_emissions", "bank");
  ("propagate_staked_settings", "bank");
  ("marginfi_account_init_liq_record", "marginfi_account");
  ("lending_account_start_flashloan", "marginfi_account"); ("lending_account_end_flashloan", "marginfi_account");
  ("marginfi_account_update_emissions_destination_account", "marginfi_account");
  ("marginfi_account_close", "marginfi_account"); ("lending_account_pulse_health", "marginfi_account");
  ("start_liquidation", "marginfi_account"); ("end_liquidation", "marginfi_account");
  ("migrate_curve", "bank"); ("init_bank_metadata", "bank");
  ("kamino_init_obligation", "bank"); ("kamino_harvest_reward", "bank");
  ("drift_init_user", "bank"); ("drift_harvest_reward", "bank");
  ("solend_init_obligation", "bank")
].
Definition in_pairs (a b : string) (l : list (string * string)) : bool :=
  existsb (fun p => seqb (fst p) a && seqb (snd p) b) l.

Definition check_group_binding_entry (e : entry) : bool :=
  forallb (fun f =>
    if plain f && (wrap_is_loader "Bank" f || wrap_is_loader "MarginfiAccount" f) then
      match group_field_of e with
      | Some g => has_one_of f g || in_pairs (e_ix e) (f_name f) group_binding_exceptions
      | None => in_pairs (e_ix e) (f_name f) group_binding_exceptions
      end
    else true) (e_fields e).
Definition check_group_binding : bool := forallb check_group_binding_entry accounts_table.

(* vault / vault-authority fields: name -> seed literal of its PDA *)
Definition vault_seed_of_name : list (string * string) := [
  ("liquidity_vault", "liquidity_vault"); ("bank_liquidity_vault", "liquidity_vault");
  ("insurance_vault", "insurance_vault"); ("bank_insurance_vault", "insurance_vault");
  ("fee_vault", "fee_vault");
  ("liquidity_vault_authority", "liquidity_vault_auth"); ("bank_liquidity_vault_authority", "liquidity_vault_auth");
  ("insurance_vault_authority", "insurance_vault_auth"); ("fee_vault_authority", "fee_vault_auth")
].
(* other fields with "vault" in their name: emissions vault (own seeds), and venue-side accounts that are
   passed through to the venue CPI *)
Definition vault_name_exceptions : list string :=
  ["emissions_vault"; "drift_spot_market_vault"; "harvest_drift_spot_market_vault"; "rewards_vault";
   "rewards_treasury_vault"; "farm_vaults_authority"].

Fixpoint contains (sub s : string) : bool :=
  String.prefix sub s || match s with String _ s' => contains sub s' | EmptyString => false end.

Definition bank_fields (e : entry) : list field := filter (fun f => wrap_is_loader "Bank" f) (e_fields e).

(* f is bound to bank field bf: bf has_one = f, or f has seeds [literal; bf.key()] *)
Definition vault_bound_to (f : field) (lit : string) (bf : field) : bool :=
  (plain bf && has_one_of bf (f_name f)) || seeds_are f [SLit lit; SKeyOf (f_name bf)].

Definition check_vault_field (e : entry) (f : field) : bool :=
  if contains "vault" (f_name f) then
    match sassoc (f_name f) vault_seed_of_name with
    | Some lit => negb (f_opt f) && existsb (vault_bound_to f lit) (bank_fields e)
    | None => smem (f_name f) vault_name_exceptions
    end
  else true.
Definition check_vaults : bool := forallb (fun e => forallb (check_vault_field e) (e_fields e)) accounts_table.

(* every fee_state field is the PDA of "feestate"; every liquidation_record field is tied to its account *)
Definition check_fee_state_field (f : field) : bool :=
  if seqb (f_name f) "fee_state" then seeds_are f FEESTATE_SEEDS && negb (f_opt f) else true.
Definition check_fee_states : bool := forallb (fun e => forallb check_fee_state_field (e_fields e)) accounts_table.

Definition check_liq_record_entry (e : entry) : bool :=
  forallb (fun f =>
    if seqb (f_name f) "liquidation_record" then
      negb (f_opt f) &&
      (existsb (fun a => wrap_is_loader "MarginfiAccount" a && plain a && has_one_of a "liquidation_record") (e_fields e)
       || existsb (fun a => wrap_is_loader "MarginfiAccount" a && plain a &&
                            seeds_are f [SLit "liq_record"; SKeyOf (f_name a)]) (e_fields e))
    else true) (e_fields e).
Definition check_liq_records : bool := forallb check_liq_record_entry accounts_table.

(* ---------------------------------------------------------------------------------------------
   C14 checkers *)
Definition check_financial_entry (e : entry) : bool :=
  if smem (e_ix e) FinancialIx then
    match group_field_of e with
    | Some g => with_field e g (fun f => plain f && has_cons (m_not_paused g) f)
    | None => false
    end
  else true.
Definition check_financial : bool :=
  forallb check_financial_entry accounts_table &&
  forallb (fun n => match find_entry n accounts_table with Some _ => true | None => false end) FinancialIx.

Definition calls_of (ix : string) : list (string * ikind * bool) :=
  match sassoc ix validate_bank_state_calls with Some l => l | None => [] end.

Definition ikind_eqb (a b : ikind) : bool :=
  match a, b with
  | Unrestricted, Unrestricted | FailsInReduceState, FailsInReduceState
  | FailsInPausedState, FailsInPausedState | FailsIfPausedOrReduceState, FailsIfPausedOrReduceState => true
  | _, _ => false
  end.

(* every call of the handler is unconditional, has the required kind, names a Bank field of the entry, and
   every Bank field the instruction's money touches is named by a call (deposit family: the one bank;
   liquidation: both banks) *)
Definition check_handler_kind (k : ikind) (ix : string) : bool :=
  match find_entry ix accounts_table with
  | None => false
  | Some e =>
    let calls := calls_of ix in
    negb (match calls with [] => true | _ => false end) &&
    forallb (fun c => ikind_eqb (snd (fst c)) k && snd c &&
                      with_field e (fst (fst c)) (fun f => wrap_is_loader "Bank" f && plain f)) calls &&
    forallb (fun f => negb (wrap_is_loader "Bank" f) || existsb (fun c => seqb (fst (fst c)) (f_name f)) calls)
            (e_fields e)
  end.
Definition check_handler_kinds : bool :=
  forallb (check_handler_kind FailsIfPausedOrReduceState) DepositBorrowFamily &&
  forallb (check_handler_kind FailsInPausedState) WithdrawRepayLiqFamily &&
  (* no other handler calls validate_bank_state *)
  forallb (fun ic => match snd ic with [] => true | _ => smem (fst ic) DepositBorrowFamily || smem (fst ic) WithdrawRepayLiqFamily end)
          validate_bank_state_calls &&
  (* the enum has exactly the variants the model knows, in this order *)
  match instruction_kind_variants with
  | [Unrestricted; FailsInReduceState; FailsInPausedState; FailsIfPausedOrReduceState] => true
  | _ => false
  end.

(* ---------------------------------------------------------------------------------------------
   hand-written handler guards (the part of the handler bodies that C08 / C14 depend on) *)
Definition bank_state_of (w : world) (b : binding) (f : string) : opstate :=
  match opstate_of_Z (num_field (bound_acct w b f) "operational_state") with
  | Some s => s
  | None => Operational
  end.

(* validate_bank_state calls of the handler, on the banks bound to the named fields *)
Definition handler_bank_gate (ix : string) (w : world) (b : binding) : res unit :=
  bank_gate (map (fun c => (bank_state_of w b (fst (fst c)), snd (fst c))) (calls_of ix)).

(* signer checks written in handler bodies *)
Definition handler_signer_guard (ix : string) (w : world) (b : binding) : res unit :=
  if seqb ix "lending_pool_handle_bankruptcy" then
    let bank := bound_acct w b "bank" in
    let g := bound_acct w b "group" in
    if bank_get_flag (num_field bank "flags") PERMISSIONLESS_BAD_DEBT_SETTLEMENT_FLAG then Ok tt
    else check (opt_key_eqb (bkey b "signer") (key_field g "risk_admin") || opt_key_eqb (bkey b "signer") (key_field g "admin"))
               (E E_Unauthorized)
  else if seqb ix "lending_pool_clone_emode" then
    let g := bound_acct w b "group" in
    check (opt_key_eqb (bkey b "signer") (key_field g "admin") || opt_key_eqb (bkey b "signer") (key_field g "emode_admin"))
          (E E_Unauthorized)
  else if seqb ix "marginfi_account_set_freeze" then
    check (opt_key_eqb (key_field (bound_acct w b "group") "admin") (bkey b "admin")) (E E_Unauthorized)
  else Ok tt.

(* order in the handlers: handle_bankruptcy validates the bank state first, then the signer *)
Definition handler_guard (ix : string) (w : world) (b : binding) : res unit :=
  let* _ := handler_bank_gate ix w b in
  handler_signer_guard ix w b.

(* an instruction is accepted as far as C08 / C14 are concerned: account validation and the modelled guards *)
Section Accept.
Context (pda : key -> list seed_val -> key).
Context (opq : string -> world -> binding -> bool).

Definition accepted (e : entry) (w : world) (b : binding) (signers : list key) : bool :=
  accepts pda opq e w b signers && is_ok (handler_guard (e_ix e) w b).

(* outcome of one matrix cell as printed by the correspondence driver *)
Inductive cell_out := COk | CVal (fld : string) (code : Z) | CBody (e : err) | CNoEntry.

Definition cell (full : bool) (ix : string) (w : world) (b : binding) (signers : list key) : cell_out :=
  match find_entry ix accounts_table with
  | None => CNoEntry
  | Some e =>
    match validate pda opq e w b signers with
    | VRej f c => CVal f c
    | VOk =>
      if full then match handler_guard ix w b with Ok _ => COk | Err er => CBody er end else COk
    end
  end.
End Accept.
