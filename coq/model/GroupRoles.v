(* GroupRoles.v — who holds which administrator role of a group, and the one instruction that assigns them:
     instructions/marginfi_group/configure.rs   marginfi_group_configure (configure)
     state/marginfi_group.rs                    update_admin / update_emode_admin / update_curve_admin / update_limit_admin /
                                                update_emissions_admin / update_metadata_admin / update_risk_admin
   and the `has_one = <role field>` constraints through which the delegated-administrator instructions recognise their
   signer (the generated accounts table of C08 states them per instruction; here they are the function `role_key`).
   The e-mode leverage caps part of the instruction is ConfigPaths.ix_group_set_caps. Keys are numbers (0 = default).
   Definitions only. *)
Require Import Base Constants ConfigGen Fixed Curve Config Emode ConfigPaths.

Inductive grole := GAdmin | GEmode | GCurve | GLimit | GEmissions | GMetadata | GRisk.

Record groles := mkGR {
  gr_admin : Z; gr_emode : Z; gr_curve : Z; gr_limit : Z; gr_emissions : Z; gr_metadata : Z; gr_risk : Z;
  gr_caps : caps;            (* emode_max_init_leverage / emode_max_maint_leverage (u32 basis) *)
  gr_fee_last : Z            (* fee_state_cache.last_update *)
}.

Definition role_key (g : groles) (r : grole) : Z :=
  match r with
  | GAdmin => gr_admin g | GEmode => gr_emode g | GCurve => gr_curve g | GLimit => gr_limit g
  | GEmissions => gr_emissions g | GMetadata => gr_metadata g | GRisk => gr_risk g
  end.

(* the `has_one` of a delegated-administrator instruction: the signer must be the key stored for that role *)
Definition role_accepts (g : groles) (r : grole) (signer : Z) : bool := role_key g r =? signer.

Record gc_args := mkGC {
  gc_admin : Z; gc_emode : Z; gc_curve : Z; gc_limit : Z; gc_emissions : Z; gc_metadata : Z; gc_risk : Z;
  gc_init : option fx; gc_maint : option fx
}.

(* marginfi_group_configure: group has_one admin; every role field takes the argument of the same name; caps validated *)
Definition ix_group_configure (g : groles) (signer : Z) (a : gc_args) (now : Z) : res groles :=
  let* _ := check (gr_admin g =? signer) (E E_Unauthorized) in
  let* c := ix_group_set_caps (gc_init a) (gc_maint a) in
  Ok (mkGR (gc_admin a) (gc_emode a) (gc_curve a) (gc_limit a) (gc_emissions a) (gc_metadata a) (gc_risk a) c now).

Definition gr_apply (g : groles) (op : Z * gc_args * Z) : groles :=
  let '(signer, a, now) := op in
  match ix_group_configure g signer a now with Ok g' => g' | Err _ => g end.
Definition gr_run (g : groles) (ops : list (Z * gc_args * Z)) : groles := fold_left gr_apply ops g.

Definition role_keys (g : groles) : list Z :=
  [gr_admin g; gr_emode g; gr_curve g; gr_limit g; gr_emissions g; gr_metadata g; gr_risk g].

(* ---------------------------------------------------------------- fixture and trace of the correspondence (suite `roles`),
   also evaluated inside Coq on sampled cases *)
Inductive gr_op := GOConfigure (signer : Z) (a : gc_args) | GOProbe (r : grole) (signer : Z) | GOTick (dt : Z).
Definition gr_err_code (e : err) : Z := match e with EPanic => -1 | ENone => -2 | E c => c end.
Definition gr_obs (g : groles) : list Z := role_keys g ++ [cap_init (gr_caps g); cap_maint (gr_caps g); gr_fee_last g].
Fixpoint gr_trace (g : groles) (now : Z) (ops : list gr_op) : list (list Z) :=
  match ops with
  | [] => []
  | GOConfigure s a :: r =>
      match ix_group_configure g s a now with
      | Ok g' => (0 :: gr_obs g') :: gr_trace g' now r
      | Err e => (gr_err_code e :: gr_obs g) :: gr_trace g now r
      end
  | GOProbe ro s :: r => [if role_accepts g ro s then 1 else 0] :: gr_trace g now r
  | GOTick dt :: r => [0] :: gr_trace g (now + dt) r
  end.
(* mk_group: every role held by wallet 1, default leverage caps *)
Definition gr_fixture (t0 : Z) : res groles :=
  let* c := ix_group_set_caps None None in Ok (mkGR 1 1 1 1 1 1 1 c t0).
