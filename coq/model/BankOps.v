(* BankOps.v — level-B world: several banks, several lending accounts, a clock; one operation =
   one call sequence on BankAccountWrapper exactly as the instruction handlers compose them
   (find / find_or_create, then the primitive).  Used by the correspondence suite `bankops` and by
   the invariants of C02 / C03 / C16 / C17. *)
Require Import Base Constants Fixed Curve Bank.

Record bworld := mkBW { bw_banks : list bank; bw_accts : list laccount; bw_now : Z; bw_pf : prog_fees }.

Inductive bop :=
| BSetClock (t : Z)
| BDeposit (a b : nat) (amt : fx)
| BWithdraw (a b : nat) (amt : fx)
| BBorrow (a b : nat) (amt : fx)
| BRepay (a b : nat) (amt : fx)
| BWithdrawAll (a b : nat)
| BRepayAll (a b : nat)
| BCloseBalance (a b : nat)
| BDepositIgnoreCap (a b : nat) (amt : fx)
| BWithdrawIgnoreCap (a b : nat) (amt : fx)
| BAccrue (b : nat)
| BSocialize (b : nat) (amt : fx)
| BClaim (a b : nat)
| BSettle (a b : nat)
| BSort (a : nat)
| BCapacity (b : nat).

Definition bank_pk (b : nat) : Z := Z.of_nat b + 1.

Definition nth_res {A} (n : nat) (l : list A) : res A :=
  match nth_error l n with Some x => Ok x | None => Err EPanic end.

Definition now64 (w : bworld) : Z := wrap_u 64 (bw_now w).

Definition put (w : bworld) (a b : nat) (bk : bank) (la : laccount) : bworld :=
  mkBW (set_nth b bk (bw_banks w)) (set_nth a la (bw_accts w)) (bw_now w) (bw_pf w).
Definition put_bank (w : bworld) (b : nat) (bk : bank) : bworld :=
  mkBW (set_nth b bk (bw_banks w)) (bw_accts w) (bw_now w) (bw_pf w).

(* run `f` on the wrapper (bank, balance slot i of account a) *)
Definition with_slot (w : bworld) (a b : nat) (create : bool)
    (f : bank -> balance -> res (bank * balance * option Z)) : res (bworld * option Z) :=
  let* bk := nth_res b (bw_banks w) in
  let* la := nth_res a (bw_accts w) in
  let* (i, la1) := (if create then wrapper_find_or_create (bank_pk b) bk la (bw_now w)
                    else let* i := wrapper_find (bank_pk b) la in Ok (i, la)) in
  let* bl := nth_res i la1 in
  let* (bk', bl', r) := f bk bl in
  Ok (put w a b bk' (set_nth i bl' la1), r).

Definition lift2 (r : res (bank * balance)) : res (bank * balance * option Z) :=
  let* (b, bl) := r in Ok (b, bl, None).
Definition lift3 (r : res (bank * balance * Z)) : res (bank * balance * option Z) :=
  let* (b, bl, n) := r in Ok (b, bl, Some n).

Definition bstep (w : bworld) (o : bop) : res (bworld * option Z) :=
  let t := now64 w in
  match o with
  | BSetClock t' => Ok (mkBW (bw_banks w) (bw_accts w) t' (bw_pf w), None)
  | BDeposit a b amt => with_slot w a b true (fun bk bl => lift2 (increase_balance bk bl t amt IncDepositOnly))
  | BWithdraw a b amt => with_slot w a b false (fun bk bl => lift2 (decrease_balance bk bl t amt DecWithdrawOnly))
  | BBorrow a b amt => with_slot w a b true (fun bk bl => lift2 (decrease_balance bk bl t amt DecBorrowOnly))
  | BRepay a b amt => with_slot w a b false (fun bk bl => lift2 (increase_balance bk bl t amt IncRepayOnly))
  | BWithdrawAll a b => with_slot w a b false (fun bk bl => lift3 (withdraw_all bk bl t))
  | BRepayAll a b => with_slot w a b false (fun bk bl => lift3 (repay_all bk bl t))
  | BCloseBalance a b => with_slot w a b false (fun bk bl => lift2 (close_balance bk bl t))
  | BDepositIgnoreCap a b amt => with_slot w a b true (fun bk bl => lift2 (increase_balance bk bl t amt IncBypassDepositLimit))
  | BWithdrawIgnoreCap a b amt => with_slot w a b true (fun bk bl => lift2 (decrease_balance bk bl t amt DecBypassBorrowLimit))
  | BAccrue b =>
      let* bk := nth_res b (bw_banks w) in
      let* bk' := accrue_interest bk (bw_pf w) (bw_now w) in
      Ok (put_bank w b bk', None)
  | BSocialize b amt =>
      let* bk := nth_res b (bw_banks w) in
      let* (bk', kill) := socialize_loss bk amt in
      Ok (put_bank w b bk', Some (if kill then 1 else 0))
  | BClaim a b => with_slot w a b false (fun bk bl => lift2 (claim_emissions bk bl t))
  | BSettle a b => with_slot w a b false (fun bk bl => lift3 (settle_emissions bk bl t))
  | BSort a =>
      let* la := nth_res a (bw_accts w) in
      Ok (mkBW (bw_banks w) (set_nth a (sort_balances la) (bw_accts w)) (bw_now w) (bw_pf w), None)
  | BCapacity b =>
      let* bk := nth_res b (bw_banks w) in
      let* c := remaining_deposit_capacity bk in
      Ok (w, Some c)
  end.

(* failed operations leave the world unchanged (transaction rollback) *)
Definition bstep_total (w : bworld) (o : bop) : bworld :=
  match bstep w o with Ok (w', _) => w' | Err _ => w end.
Definition brun (w : bworld) (ops : list bop) : bworld := fold_left bstep_total ops w.

(* ---------------------------------------------------------------------------------------------
   One user's position in one bank, as a sequence of token-moving operations (C03 round trips).
   Each element carries the bank state at that moment (other users may have changed totals,
   limits, fee buckets in between — only the share values are held fixed by the theorem) and
   the clock. The Z in the result is the number of tokens the user received (negative = paid). *)
Inductive uop := UDeposit (n : Z) | UWithdraw (n : Z) | UBorrow (n : Z) | URepay (n : Z) | UWithdrawAll | URepayAll.

Definition ustep (b : bank) (bl : balance) (now : Z) (o : uop) : res (balance * Z) :=
  match o with
  | UDeposit n => let* (_, bl') := increase_balance b bl now (of_int n) IncDepositOnly in Ok (bl', - n)
  | URepay n => let* (_, bl') := increase_balance b bl now (of_int n) IncRepayOnly in Ok (bl', - n)
  | UWithdraw n => let* (_, bl') := decrease_balance b bl now (of_int n) DecWithdrawOnly in Ok (bl', n)
  | UBorrow n => let* (_, bl') := decrease_balance b bl now (of_int n) DecBorrowOnly in Ok (bl', n)
  | UWithdrawAll => let* (_, bl', n) := withdraw_all b bl now in Ok (bl', n)
  | URepayAll => let* (_, bl', n) := repay_all b bl now in Ok (bl', - n)
  end.

Fixpoint urun (bl : balance) (tok : Z) (l : list (uop * bank * Z)) : res (balance * Z) :=
  match l with
  | [] => Ok (bl, tok)
  | (o, b, now) :: r => let* (bl', t) := ustep b bl now o in urun bl' (tok + t) r
  end.

Definition uop_amount_ok (o : uop) : Prop :=
  match o with UDeposit n | UWithdraw n | UBorrow n | URepay n => 0 <= n | _ => True end.

(* rounding allowance of one operation, scale 2^96 (i.e. divide by 2^96 for tokens) *)
Definition uslack (asv lsv : Z) (o : uop) : Z :=
  match o with
  | UDeposit _ | URepay _ => 0
  | UWithdraw _ | UBorrow _ => asv + lsv                  (* one ulp of each share value *)
  | UWithdrawAll => ZERO_AMOUNT_THRESHOLD * ONE           (* forgiven liability dust < 0.0001 token *)
  | URepayAll => ONE                                      (* one ulp of a token *)
  end.
