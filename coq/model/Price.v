(* Price.v — model of programs/marginfi/src/state/price.rs (oracle adapter) and of the use sites
   that decide what an unusable price means:
     OraclePriceFeedAdapter::{try_from_bank, try_from_bank_with_max_age}   (all 13 OracleSetup values)
     load_price_update_v2_checked, PythPushOraclePriceFeed::{load_checked, get_confidence_interval,
       get_price_of_type, get_price_and_confidence_of_type}, pyth_price_components_to_i80f48
     pyth_solana_receiver_sdk-0.6.0 PriceUpdateV2::get_price_no_older_than_with_custom_verification_level
     SwitchboardPullPriceFeed::{load_checked, get_price, get_confidence_interval, get_price_of_type, ..}
     parse_swb_ignore_alignment, FixedPriceFeed, BankConfig::get_oracle_max_age
     type-crate price.rs adjust_i64 / adjust_u64 / adjust_i128 / scale_supplies, drift-mocks adjust_*
     marginfi_account.rs calc_weighted_asset_value / calc_weighted_liab_value / try_get_price_feed (the
       part that turns a price result into a value or an error; the value arithmetic is an argument)
     liquidate.rs / withdraw.rs price fetch + explicit zero-price checks
   Oracle accounts are abstract records (key, owner, parsed body); byte parsing is covered by the
   correspondence suite, which builds real account bytes from the same records.
   Feature set: mainnet-beta (live!() = true): the Pyth account owner must be the receiver program. *)
Require Import Base Constants Fixed.

(* ---------------------------------------------------------------- identities *)
(* Pubkeys are abstract integers. Two program ids are distinguished. *)
Definition PYTH_RECEIVER_ID : Z := 1.      (* pyth_solana_receiver_sdk::id() *)
Definition SWITCHBOARD_PULL_ID : Z := 2.   (* constants::SWITCHBOARD_PULL_ID *)

(* Builtin (non-custom) ProgramErrors are encoded as negative codes; the drivers print E(-n) as PE<n>.
   ProgramError::BorshIoError = 15 << 32 *)
Definition PE_BORSH_IO : Z := - 64424509440.

Definition EMath : err := E E_MathError.

(* ---------------------------------------------------------------- accounts *)
(* PriceUpdateV2 after borsh decoding (write_authority, feed_id, prev_publish_time, posted_slot are
   not read by the program; the feed id is only compared with itself) *)
Record pyth_msg := mkPM {
  pm_full : bool;          (* verification_level = Full (false: Partial{n}) *)
  pm_price : Z;            (* i64 *)
  pm_conf : Z;             (* u64 *)
  pm_expo : Z;             (* i32 *)
  pm_publish : Z;          (* i64 *)
  pm_ema_price : Z;        (* i64 *)
  pm_ema_conf : Z          (* u64 *)
}.

(* PullFeedAccountData: only result.value, result.std_dev, last_update_timestamp are read *)
Record swb_msg := mkSM {
  sm_value : Z;            (* i128, 1e18 scale *)
  sm_std_dev : Z;          (* i128, 1e18 scale *)
  sm_last_update : Z       (* i64 *)
}.

Inductive obody :=
| BShort                   (* fewer than 8 bytes *)
| BForeign                 (* >= 8 bytes, discriminator of neither oracle type *)
| BPythTrunc               (* PriceUpdateV2 discriminator, body does not borsh-decode *)
| BPyth (m : pyth_msg)
| BSwbTrunc                (* PullFeedAccountData discriminator, fewer than 8 + size_of bytes *)
| BSwb (m : swb_msg).

Record oacct := mkOA { oa_key : Z; oa_owner : Z; oa_body : obody }.

(* ---------------------------------------------------------------- feeds *)
Inductive feed :=
| FPyth (price conf expo ema_price ema_conf : Z)
| FSwb (value std_dev : Z)
| FFixed (price : fx).

(* ---------------------------------------------------------------- Pyth push *)
(* load_price_update_v2_checked *)
Definition px_pyth_account (a : oacct) : res pyth_msg :=
  let* _ := check (oa_owner a =? PYTH_RECEIVER_ID) (E E_PythPushWrongAccountOwner) in
  match oa_body a with
  | BShort => Err EPanic                        (* &data[0..8] *)
  | BPyth m => Ok m
  | BPythTrunc => Err (E PE_BORSH_IO)
  | _ => Err (E E_PythPushInvalidAccount)       (* discriminator mismatch *)
  end.

(* PythPushOraclePriceFeed::load_checked + SDK get_price_no_older_than_with_custom_verification_level
   (MIN_PYTH_PUSH_VERIFICATION_LEVEL = Full; feed id taken from the account itself) *)
Definition px_pyth_load_checked (a : oacct) (now max_age : Z) : res feed :=
  let* m := px_pyth_account a in
  let* _ := check (pm_full m) (E E_PythPushInsufficientVerificationLevel) in
  let* ma := chk in_i64 max_age in              (* maximum_age.try_into().unwrap() : u64 -> i64 *)
  let* _ := check (now <=? sat_i64 (pm_publish m + ma)) (E E_PythPushStalePrice) in
  Ok (FPyth (pm_price m) (pm_conf m) (pm_expo m) (pm_ema_price m) (pm_ema_conf m)).

(* ---------------------------------------------------------------- Switchboard pull *)
Definition px_swb_parse (b : obody) : res swb_msg :=
  match b with
  | BSwb m => Ok m
  | BSwbTrunc => Err EPanic                     (* &data[8..8+size_of] *)
  | _ => Err (E E_SwitchboardInvalidAccount)
  end.

Definition px_swb_load_checked (a : oacct) (now max_age : Z) : res feed :=
  let* _ := check (oa_owner a =? SWITCHBOARD_PULL_ID) (E E_SwitchboardWrongAccountOwner) in
  let* m := px_swb_parse (oa_body a) in
  (* current_timestamp.saturating_sub(last_updated) > max_age as i64 *)
  if wrap_s 64 max_age <? sat_i64 (now - sm_last_update m) then Err (E E_SwitchboardStalePrice)
  else Ok (FSwb (sm_value m) (sm_std_dev m)).

(* ---------------------------------------------------------------- bank configuration *)
Definition OS_None : Z := 0.
Definition OS_PythLegacy : Z := 1.
Definition OS_SwitchboardV2 : Z := 2.
Definition OS_PythPushOracle : Z := 3.
Definition OS_SwitchboardPull : Z := 4.
Definition OS_StakedWithPythPush : Z := 5.
Definition OS_KaminoPythPush : Z := 6.
Definition OS_KaminoSwitchboardPull : Z := 7.
Definition OS_Fixed : Z := 8.
Definition OS_DriftPythPull : Z := 9.
Definition OS_DriftSwitchboardPull : Z := 10.
Definition OS_SolendPythPull : Z := 11.
Definition OS_SolendSwitchboardPull : Z := 12.

Record ocfg := mkOC {
  oc_setup : Z;            (* OracleSetup as u8 *)
  oc_key0 : Z; oc_key1 : Z; oc_key2 : Z;        (* oracle_keys[0..3] *)
  oc_max_age : Z;          (* u16 *)
  oc_max_conf : Z;         (* u32 *)
  oc_fixed_price : fx
}.

(* BankConfig::get_oracle_max_age *)
Definition px_oracle_max_age (c : ocfg) : Z :=
  if (oc_max_age c =? 0) && (oc_setup c =? OS_PythPushOracle) then MAX_PYTH_ORACLE_AGE else oc_max_age c.

(* ---------------------------------------------------------------- second / third accounts *)
(* What the program learns from the venue account (Kamino reserve, Drift spot market, Solend
   reserve) and from the two staking accounts. Their byte formats and the exchange-rate arithmetic
   inside them belong to other properties; here they are the results of the calls the adapter makes.
   Their keys are the keys of ais[1] / ais[2]. *)
Inductive vloader := VLOk | VLInvalid | VLPanic.
   (* AccountLoader::<T>::try_from + load: ok | owner/discriminator rejected | data too short *)

Record venue := mkVN {
  vn_loader : vloader;
  vn_last : Z;                        (* reserve.slot / spot_market.last_interest_ts / last_update_slot (u64) *)
  vn_supplies : res (fx * fx);        (* scaled_supplies() : (total_liq, total_col)   [Kamino, Solend] *)
  vn_cum : Z                          (* cumulative_deposit_interest : u128            [Drift] *)
}.

Record staking := mkSK {
  sk_supply : res Z;                  (* Account::<Mint>::try_from(..).unwrap().supply ; Err EPanic if not a mint *)
  sk_stake : res Z                    (* StakeStateV2::Stake delegation.stake ; Err (E PE_BORSH_IO) / Err EPanic *)
}.

Record oclock := mkCK { ck_now : Z; ck_slot : Z }.   (* unix_timestamp i64, slot u64 *)

(* type-crate price.rs *)
Definition px_adjust_i64 (raw : Z) (r : fx) : res Z :=
  let* m := cmul (of_int raw) r in to_i64_checked m.
Definition px_adjust_u64 (raw : Z) (r : fx) : res Z :=
  let* m := cmul (of_int raw) r in to_u64_checked m.
Definition px_adjust_i128 (raw : Z) (r : fx) : res Z :=
  let* f := of_int_checked raw in
  let* m := cmul f r in to_i128_checked m.
Definition px_exp10_opt (n : Z) : option fx :=
  if (0 <=? n) && (n <? Z.of_nat (length EXP_10_I80F48)) then nth_error EXP_10_I80F48 (Z.to_nat n) else None.
Definition px_scale_supplies (total_liq_raw : fx) (total_col_raw : Z) (decimals : Z) : res (fx * fx) :=
  match px_exp10_opt decimals with
  | None => Err ENone
  | Some s =>
      let* tl := cdiv total_liq_raw s in
      let* tc := cdiv (of_int total_col_raw) s in
      Ok (tl, tc)
  end.

(* drift-mocks MinimalSpotMarket::adjust_{i64,u64,i128}: raw * cumulative_deposit_interest / 10^10 in u128 *)
Definition SPOT_CUMULATIVE_INTEREST_PRECISION : Z := 10000000000.
Definition EDriftMath : err := E E_DriftMocks_MathError.
Definition EDriftScaling : err := E E_DriftMocks_ScalingOverflow.   (* drift-mocks math_error!() *)
Definition px_drift_adjust (inr : Z -> bool) (raw cum : Z) : res Z :=
  if raw <? 0 then Err EDriftMath else
  let* m := ok_or (chko in_u128 (raw * cum)) EDriftScaling in
  let a := m / SPOT_CUMULATIVE_INTEREST_PRECISION in
  if inr a then Ok a else Err EDriftMath.

(* "Adjust prices & confidence in place" with a liquidity/collateral ratio *)
Definition px_adjust_feed_ratio (f : feed) (r : fx) : res feed :=
  match f with
  | FPyth p c e ep ec =>
      let* p' := ok_or (px_adjust_i64 p r) EMath in
      let* ep' := ok_or (px_adjust_i64 ep r) EMath in
      let* c' := ok_or (px_adjust_u64 c r) EMath in
      let* ec' := ok_or (px_adjust_u64 ec r) EMath in
      Ok (FPyth p' c' e ep' ec')
  | FSwb v s =>
      let* v' := ok_or (px_adjust_i128 v r) EMath in
      let* s' := ok_or (px_adjust_i128 s r) EMath in
      Ok (FSwb v' s')
  | FFixed _ => Ok f
  end.

(* Kamino / Solend tail: scaled_supplies()?; if total_col > 0 { ratio = total_liq / total_col; adjust } *)
Definition px_adjust_by_supplies (f : feed) (sup : res (fx * fx)) : res feed :=
  let* tltc := sup in
  let (tl, tc) := tltc in
  if 0 <? tc then let* r := wdiv tl tc in px_adjust_feed_ratio f r else Ok f.

(* Drift tail *)
Definition px_adjust_by_drift (f : feed) (cum : Z) : res feed :=
  match f with
  | FPyth p c e ep ec =>
      let* p' := px_drift_adjust in_i64 p cum in
      let* ep' := px_drift_adjust in_i64 ep cum in
      let* c' := px_drift_adjust in_u64 c cum in
      let* ec' := px_drift_adjust in_u64 ec cum in
      Ok (FPyth p' c' e ep' ec')
  | FSwb v s =>
      let* v' := px_drift_adjust in_i128 v cum in
      let* s' := px_drift_adjust in_i128 s cum in
      Ok (FSwb v' s')
  | FFixed _ => Ok f
  end.

(* Staked tail: price * (stake - 1 SOL) / lst_supply in i128, back to i64 with unwrap *)
Definition LAMPORTS_PER_SOL : Z := 1000000000.
Definition px_staked_adjust_one (price adj supply : Z) : res Z :=
  let* m := ok_or (chko in_i128 (price * adj)) EMath in
  let* q := ok_or (if supply =? 0 then Err ENone else chko in_i128 (Z.quot m supply)) EMath in
  chk in_i64 q.
Definition px_adjust_by_stake (f : feed) (adj supply : Z) : res feed :=
  match f with
  | FPyth p c e ep ec =>
      let* p' := px_staked_adjust_one p adj supply in
      let* ep' := px_staked_adjust_one ep adj supply in
      Ok (FPyth p' c e ep' ec)
  | _ => Ok f
  end.

Definition px_check_loader (l : vloader) (e : Z) : res unit :=
  match l with VLOk => Ok tt | VLInvalid => Err (E e) | VLPanic => Err EPanic end.

Definition ENum : err := E E_WrongNumberOfOracleAccounts.
Definition EKeys : err := E E_WrongOracleAccountKeys.

(* the Pyth price account of the staked / Kamino / Drift / Solend variants: owner, then load_checked *)
Definition px_pyth_owned (a : oacct) (owner_err : Z) (now max_age : Z) : res feed :=
  let* _ := check (oa_owner a =? PYTH_RECEIVER_ID) (E owner_err) in
  px_pyth_load_checked a now max_age.

(* ---------------------------------------------------------------- try_from_bank_with_max_age *)
Definition px_try_from_bank_with_max_age (c : ocfg) (ais : list oacct) (vn : venue) (sk : staking)
    (ck : oclock) (max_age : Z) : res feed :=
  let s := oc_setup c in
  let now := ck_now ck in
  if s =? OS_None then Err (E E_OracleNotSetup)
  else if s =? OS_PythPushOracle then
    match ais with
    | [a] =>
        let* _ := check (oa_owner a =? PYTH_RECEIVER_ID) (E E_PythPushWrongAccountOwner) in
        let* _ := check (oa_key a =? oc_key0 c) EKeys in
        px_pyth_load_checked a now max_age
    | _ => Err ENum
    end
  else if s =? OS_SwitchboardPull then
    match ais with
    | [a] =>
        let* _ := check (oa_key a =? oc_key0 c) EKeys in
        px_swb_load_checked a now max_age
    | _ => Err ENum
    end
  else if s =? OS_StakedWithPythPush then
    match ais with
    | [a; a1; a2] =>
        let* _ := check ((oa_key a1 =? oc_key1 c) && (oa_key a2 =? oc_key2 c)) EKeys in
        let* supply := sk_supply sk in
        let* _ := check (0 <? supply) (E E_ZeroSupplyInStakePool) in
        let* stake := sk_stake sk in
        let* adj := ok_or (chko in_u64 (stake - LAMPORTS_PER_SOL)) EMath in
        let* _ := check (oa_key a =? oc_key0 c) EKeys in
        let* f := px_pyth_owned a E_StakedPythPushWrongAccountOwner now max_age in
        px_adjust_by_stake f adj supply
    | _ => Err ENum
    end
  else if s =? OS_KaminoPythPush then
    match ais with
    | [a; a1] =>
        let* _ := check (oa_key a =? oc_key0 c) EKeys in
        let* _ := check (oa_key a1 =? oc_key1 c) (E E_KaminoReserveValidationFailed) in
        let* _ := px_check_loader (vn_loader vn) E_KaminoReserveValidationFailed in
        let* _ := check (negb (vn_last vn <? ck_slot ck)) (E E_ReserveStale) in
        let* f := px_pyth_owned a E_PythPushWrongAccountOwner now max_age in
        px_adjust_by_supplies f (vn_supplies vn)
    | _ => Err ENum
    end
  else if s =? OS_KaminoSwitchboardPull then
    match ais with
    | [a; a1] =>
        let* _ := check (oa_key a =? oc_key0 c) EKeys in
        let* _ := check (oa_key a1 =? oc_key1 c) (E E_KaminoReserveValidationFailed) in
        let* _ := px_check_loader (vn_loader vn) E_KaminoReserveValidationFailed in
        let* _ := check (negb (vn_last vn <? ck_slot ck)) (E E_ReserveStale) in
        let* f := px_swb_load_checked a now max_age in
        px_adjust_by_supplies f (vn_supplies vn)
    | _ => Err ENum
    end
  else if s =? OS_Fixed then
    match ais with
    | [] =>
        let* _ := check (0 <=? oc_fixed_price c) (E E_FixedOraclePriceNegative) in
        Ok (FFixed (oc_fixed_price c))
    | _ => Err ENum
    end
  else if s =? OS_DriftPythPull then
    match ais with
    | [a; a1] =>
        let* _ := check (oa_key a =? oc_key0 c) EKeys in
        let* _ := check (oa_key a1 =? oc_key1 c) (E E_DriftSpotMarketValidationFailed) in
        let* _ := px_check_loader (vn_loader vn) E_DriftSpotMarketValidationFailed in
        let* _ := check (negb (wrap_s 64 (vn_last vn) <? now)) (E E_DriftSpotMarketStale) in
        let* f := px_pyth_owned a E_PythPushWrongAccountOwner now max_age in
        px_adjust_by_drift f (vn_cum vn)
    | _ => Err ENum
    end
  else if s =? OS_DriftSwitchboardPull then
    match ais with
    | [a; a1] =>
        let* _ := check (oa_key a =? oc_key0 c) EKeys in
        let* _ := check (oa_key a1 =? oc_key1 c) (E E_DriftSpotMarketValidationFailed) in
        let* _ := px_check_loader (vn_loader vn) E_DriftSpotMarketValidationFailed in
        let* _ := check (negb (wrap_s 64 (vn_last vn) <? now)) (E E_DriftSpotMarketStale) in
        let* f := px_swb_load_checked a now max_age in
        px_adjust_by_drift f (vn_cum vn)
    | _ => Err ENum
    end
  else if s =? OS_SolendPythPull then
    match ais with
    | [a; a1] =>
        let* _ := check (oa_key a1 =? oc_key1 c) (E E_SolendReserveValidationFailed) in
        let* _ := px_check_loader (vn_loader vn) E_SolendReserveValidationFailed in
        let* _ := check (negb (vn_last vn <? ck_slot ck)) (E E_SolendReserveStale) in
        let* _ := check (oa_key a =? oc_key0 c) EKeys in
        let* f := px_pyth_owned a E_PythPushWrongAccountOwner now max_age in
        px_adjust_by_supplies f (vn_supplies vn)
    | _ => Err ENum
    end
  else if s =? OS_SolendSwitchboardPull then
    match ais with
    | [a; a1] =>
        let* _ := check (oa_key a =? oc_key0 c) EKeys in
        let* _ := check (oa_key a1 =? oc_key1 c) (E E_SolendReserveValidationFailed) in
        let* _ := px_check_loader (vn_loader vn) E_SolendReserveValidationFailed in
        let* _ := check (negb (vn_last vn <? ck_slot ck)) (E E_SolendReserveStale) in
        let* f := px_swb_load_checked a now max_age in
        px_adjust_by_supplies f (vn_supplies vn)
    | _ => Err ENum
    end
  else Err EPanic.                    (* PythLegacy / SwitchboardV2: panic!("... is deprecated") *)

Definition px_try_from_bank (c : ocfg) (ais : list oacct) (vn : venue) (sk : staking) (ck : oclock) : res feed :=
  px_try_from_bank_with_max_age c ais vn sk ck (px_oracle_max_age c).

(* ---------------------------------------------------------------- prices *)
Inductive ptype := TimeWeighted | RealTime.
Inductive pbias := PLow | PHigh.

Definition px_assert (b : bool) : res unit := if b then Ok tt else Err EPanic.

(* EXP_10_I80F48[n] (index out of bounds aborts) *)
Definition px_exp10 (n : Z) : res fx :=
  match px_exp10_opt n with Some v => Ok v | None => Err EPanic end.

(* pyth_price_components_to_i80f48 *)
Definition px_pyth_components (p : fx) (expo : Z) : res fx :=
  let* sf := px_exp10 (Z.abs expo) in
  if expo =? 0 then Ok p
  else if expo <? 0 then ok_or (cdiv p sf) EMath
  else ok_or (cmul p sf) EMath.

(* the configured maximum relative confidence as an I80F48 numerator over U32_MAX *)
Definition px_max_conf_factor (omc : Z) : fx := if 0 <? omc then of_int omc else U32_MAX_DIV_10_FX.

(* common tail of both get_confidence_interval functions *)
Definition px_conf_check_and_cap (ci price : fx) (omc : Z) : res fx :=
  let* m := ok_or (cmul price (px_max_conf_factor omc)) EMath in
  let* max_conf := ok_or (cdiv m U32_MAX_FX) EMath in
  if max_conf <? ci then Err (E E_OracleMaxConfidenceExceeded) else
  let* cap := ok_or (cmul price MAX_CONF_INTERVAL) EMath in
  let* _ := px_assert (0 <=? cap) in
  let* _ := px_assert (0 <=? ci) in
  Ok (fmin ci cap).

(* I80F48::from_num(i128): wraps when debug assertions are off *)
Definition px_from_i128 (v : Z) : fx := wrap128 (v * ONE).

(* unbiased price of a feed *)
Definition px_price (f : feed) (t : ptype) : res fx :=
  match f with
  | FPyth p c e ep ec =>
      match t with
      | TimeWeighted => px_pyth_components (of_int ep) e
      | RealTime => px_pyth_components (of_int p) e
      end
  | FSwb v s =>
      let* sf := px_exp10 18 in ok_or (cdiv (px_from_i128 v) sf) EMath
  | FFixed p => Ok p
  end.

(* the reported confidence scaled to a 95% interval, before the checks *)
Definition px_scaled_conf (f : feed) (t : ptype) : res fx :=
  match f with
  | FPyth p c e ep ec =>
      let cf := match t with TimeWeighted => ec | RealTime => c end in
      let* c0 := px_pyth_components (of_int cf) e in
      ok_or (cmul c0 CONF_INTERVAL_MULTIPLE) EMath
  | FSwb v s =>
      let* sf := px_exp10 18 in
      let* s0 := ok_or (cdiv (px_from_i128 s) sf) EMath in
      ok_or (cmul s0 STD_DEV_MULTIPLE) EMath
  | FFixed _ => Ok 0
  end.

(* get_confidence_interval *)
Definition px_conf_interval (f : feed) (t : ptype) (omc : Z) : res fx :=
  match f with
  | FFixed _ => Ok 0
  | _ =>
      let* ci := px_scaled_conf f t in
      let* price := px_price f t in
      px_conf_check_and_cap ci price omc
  end.

(* PriceAdapter::get_price_of_type *)
Definition px_price_of_type (f : feed) (t : ptype) (b : option pbias) (omc : Z) : res fx :=
  match f with
  | FFixed p => Ok p
  | _ =>
      let* price := px_price f t in
      match b with
      | None => Ok price
      | Some bias =>
          let* ci := px_conf_interval f t omc in
          match bias with
          | PLow => ok_or (csub price ci) EMath
          | PHigh => ok_or (cadd price ci) EMath
          end
      end
  end.

(* PriceAdapter::get_price_and_confidence_of_type *)
Definition px_price_and_conf (f : feed) (t : ptype) (omc : Z) : res (fx * fx) :=
  match f with
  | FFixed p => Ok (p, 0)
  | _ =>
      let* ci := px_conf_interval f t omc in
      let* price := px_price_of_type f t None omc in
      Ok (price, ci)
  end.

(* ---------------------------------------------------------------- valuation use sites *)
Inductive requirement := RInitial | RMaintenance | REquity.

(* RequirementType::get_oracle_price_type *)
Definition px_req_price_type (r : requirement) : ptype :=
  match r with RMaintenance => RealTime | _ => TimeWeighted end.

(* MarginfiError::from(u32): identity on the codes of existing variants, InternalLogicError otherwise *)
Definition px_err_from_u32 (c : Z) : Z :=
  if (E_InternalLogicError <? c) && (c <? 7000) then c else E_InternalLogicError.

(* BankAccountWithPriceFeed::try_get_price_feed on the stored result of try_from_bank *)
Definition px_try_get_price_feed (pf : res feed) : res feed * Z :=
  match pf with
  | Ok f => (Ok f, 0)
  | Err (E c) =>
      if c <? 0 then (Err (E E_InternalLogicError), E_InternalLogicError)   (* non-custom ProgramError *)
      else (Err (E (px_err_from_u32 c)), c)
  | Err e => (Err e, 0)        (* a panic never reaches this point *)
  end.

(* calc_weighted_asset_value: (value, price, err_code). `value_of lower_price` stands for the weight
   selection, the init-limit discount, get_asset_amount and calc_value — all evaluated after the price
   has been obtained. *)
Definition px_weighted_asset_value (isolated reduce_only : bool) (req : requirement) (pf : res feed)
    (omc : Z) (value_of : fx -> res fx) : res (fx * fx * Z) :=
  if isolated then Ok (0, 0, 0) else
  if reduce_only && (match req with RInitial => true | _ => false end) then Ok (0, 0, 0) else
  let (f, code) := px_try_get_price_feed pf in
  match f, req with
  | Err _, RInitial => Ok (0, 0, code)
  | Err e, _ => Err e
  | Ok fd, _ =>
      let* lo := px_price_of_type fd (px_req_price_type req) (Some PLow) omc in
      let* v := value_of lo in
      Ok (v, lo, 0)
  end.

(* calc_weighted_liab_value: (value, price) *)
Definition px_weighted_liab_value (req : requirement) (pf : res feed) (omc : Z)
    (value_of : fx -> res fx) : res (fx * fx) :=
  let (f, _) := px_try_get_price_feed pf in
  let* fd := f in
  let* hi := px_price_of_type fd (px_req_price_type req) (Some PHigh) omc in
  let* v := value_of hi in
  Ok (v, hi).

(* liquidate.rs: the two prices that size a liquidation *)
Definition px_liquidation_prices (asset_pf liab_pf : res feed) (omc_a omc_l : Z) : res (fx * fx) :=
  let* fa := asset_pf in
  let* pa := px_price_of_type fa RealTime (Some PLow) omc_a in
  let* _ := check (0 <? pa) (E E_ZeroAssetPrice) in
  let* fl := liab_pf in
  let* pl := px_price_of_type fl RealTime (Some PHigh) omc_l in
  let* _ := check (0 <? pl) (E E_ZeroLiabilityPrice) in
  Ok (pa, pl).

(* withdraw.rs in receivership: the price used to value what the receiver takes out *)
Definition px_receivership_withdraw_price (pf : res feed) (omc : Z) : res fx :=
  let* f := pf in
  let* p := px_price_of_type f RealTime (Some PLow) omc in
  let* _ := check (0 <? p) (E E_ZeroAssetPrice) in
  Ok p.

(* ---------------------------------------------------------------- one balance through the risk engine *)
(* RiskEngine::new + get_account_health_components for an account with a single balance of one token in
   a bank with share values 1, all weights 1 and no init-value limit, so that calc_value is
   trunc(price / 10^balance_decimals) (balance_decimals = 0, or DRIFT_SCALED_BALANCE_DECIMALS for a
   Drift bank): (total_assets, total_liabilities). A panic inside try_from_bank surfaces while the
   engine is built. Used by the correspondence suite `oraclerisk`. *)
Definition px_unit_value (decimals : Z) (p : fx) : res fx :=
  let* s := px_exp10 decimals in ok_or (cdiv p s) EMath.

Definition px_single_balance_components (liab_side isolated reduce_only : bool) (req : requirement)
    (pf : res feed) (omc : Z) (decimals : Z) : res (fx * fx) :=
  match pf with
  | Err EPanic => Err EPanic
  | Err ENone => Err ENone
  | _ =>
      if liab_side then
        let* vp := px_weighted_liab_value req pf omc (px_unit_value decimals) in Ok (0, fst vp)
      else
        let* vpc := px_weighted_asset_value isolated reduce_only req pf omc (px_unit_value decimals) in
        Ok (fst (fst vpc), 0)
  end.
